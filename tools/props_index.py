"""Index of proof obligations per property: (Lean module, theorem) pairs that ./check has the kernel
re-check and audits with `#print axioms`.  Property theorems live in KtVerif/Props/<id>.lean, the tie
of the regenerated data to the spec data in KtVerif/Tie/*.lean."""

TRUSTED_BASE = [
    "Lean 4.33.0 kernel (thorough tier: also leanchecker on the compiled .olean)",
    "axioms admitted by the audit: propext, Classical.choice, Quot.sound (each theorem's actual set is listed under coverage.theorems)",
    "tools/gen_from_source.py + `ktharness dump-tables`: regeneration of KtVerif/Generated.lean from source text and compiled behaviour",
    "correspondence harness (/verif/harness), line protocol and canonicalisation; agreement model = implementation is established on the explored cases only",
    "Main.lean / KtVerif/Driver.lean glue (hex decoding, printing)",
]

import os, re

LEAN_DIR = os.path.join(os.path.dirname(os.path.abspath(__file__)), "..", "lean")


def props_theorems(pid, *more):
    """every `theorem` of KtVerif/Props/<pid>.lean (namespace KT) is an obligation of <pid>"""
    out = []
    for m in more:
        out += props_theorems(m)
    path = os.path.join(LEAN_DIR, "KtVerif", "Props", pid + ".lean")
    if os.path.exists(path):
        for line in open(path):
            m = re.match(r"theorem\s+([A-Za-z0-9_'.]+)", line)
            if m:
                out.append(("KtVerif.Props." + pid, "KT." + m.group(1)))
    return out


def T(mod, names):
    return [(mod, "KT." + n) for n in names]


TIE_KMER = [("KtVerif.Tie.Tables", "KT.Tie.nt4_kmer_table_eq_spec"), ("KtVerif.Tie.Tables", "KT.Tie.rev_mask_eq_three")]
TIE_MIN = [("KtVerif.Tie.Tables", "KT.Tie.nt4_min_table_eq_spec")]
TIE_KMIN = [("KtVerif.Tie.Tables", "KT.Tie.nt4_kmin_table_eq_spec")]
TIE_CGR = [("KtVerif.Tie.Misc", "KT.Tie.cgr_corner_table_eq_spec")]
TIE_OCGR = [("KtVerif.Tie.Misc", "KT.Tie.oligocgr_corner_table_eq_spec")]
TIE_NUMSZ = [("KtVerif.Tie.Misc", "KT.Tie.number_size_eq_eight")]
TIE_FMT = [("KtVerif.Tie.Misc", "KT.Tie.formats_eq_spec")]
TIE_LETTERS = [("KtVerif.Tie.Tables", "KT.Tie.letters_eq_spec")]
C01_CORE = T("KtVerif.Props.C01", ["kmerGen_eq_spec"])

PROPS = {
    "C01": {
        "theorems": props_theorems("C01") + TIE_KMER,
        "assumptions": ["raw bytes 0x00-0x03 are outside the property (informational stream)"],
        "partial": [],
    },
    "C02": {"theorems": props_theorems("C02") + C01_CORE + TIE_KMER + TIE_LETTERS, "partial": []},
    "C03": {"needs_cli": True, "theorems": props_theorems("C03") + TIE_LETTERS, "partial": []},
    "C04": {"ub_build": True, "theorems": props_theorems("C04") + C01_CORE + TIE_KMER + T("KtVerif.Props.FloatLemmas", ["f64OfNat_exact", "f64Div_nat_err", "f64Div_zero", "fmt6_quotient_correct", "fmt6_length"]), "partial": []},
    "C08": {"ub_build": True, "theorems": props_theorems("C08") + T("KtVerif.Props.E2E2", ["cntOfTable_eq", "cov_end_to_end"]) + C01_CORE + TIE_KMER + T("KtVerif.Props.FloatLemmas", ["covBinF64_eq_div", "fmt6_quotient_correct"]), "partial": []},
    "C11": {"theorems": props_theorems("C11") + T("KtVerif.Props.E2E2", ["cgrF64_in_square", "cgrF64_subsquare"]) + TIE_CGR + T("KtVerif.Props.FloatLemmas", ["roundDiv_err", "f64OfNat_exact"]), "partial": []},
    "C12": {"theorems": props_theorems("C12") + TIE_OCGR + TIE_CGR + C01_CORE + TIE_KMER, "partial": []},
    "C05": {"theorems": props_theorems("C05") + T("KtVerif.Props.E2E2", ["containers_agree"]) + T("KtVerif.Props.E2E", ["oligoRowText_length", "oligoRowText_eq_spec", "oligo_mmap_end_to_end", "oligo_batch_end_to_end", "oligoRowSpec_le_total"]), "partial": []},
    "C14": {"ub_build": True, "theorems": props_theorems("C14") + TIE_NUMSZ + T("KtVerif.Props.FloatLemmas", ["fmt6_length", "f64Div_le_one"]), "partial": []},
    "C06": {"theorems": props_theorems("C06") + TIE_FMT, "partial": []},
    "C07": {"theorems": props_theorems("C07") + T("KtVerif.Props.E2E", ["count_chunks_end_to_end", "count_end_to_end"]) + C01_CORE + TIE_KMER, "partial": []},
    "C10": {"theorems": props_theorems("C10", "C10sched") + T("KtVerif.Props.C09", ["minimisers_eq_specRuns", "minimisers_no_placeholder"]) + TIE_MIN + TIE_LETTERS, "partial": []},
    "C09": {"theorems": props_theorems("C09", "C09b") + TIE_MIN, "partial": []},
    "C13": {"theorems": props_theorems("C13") + TIE_CGR + C01_CORE + TIE_KMER + TIE_MIN + TIE_LETTERS, "partial": [], "needs_py": True},
    "C15": {"theorems": props_theorems("C15") + [("KtVerif.Tie.Cli", "KT.Tie.clap_ranges_documented")], "partial": [], "needs_cli": True},
    "C16": {"theorems": props_theorems("C16") + T("KtVerif.Props.C09", ["minimisers_no_placeholder"]) + T("KtVerif.Props.C05", ["batchLoop_flatten"]), "partial": [], "needs_cli": True},
    "C17": {"theorems": props_theorems("C17"), "partial": [], "needs_cli": True},
    "C18": {"theorems": props_theorems("C18") + TIE_KMIN + TIE_MIN, "partial": []},
}

HOOK_COMMITS = ["2bee093", "c72f01b", "6f8e937", "f388698", "6674084"]
