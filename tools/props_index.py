"""Index of proof obligations per property: (Lean module, theorem) pairs that ./check has the kernel
re-check and audits with `#print axioms`.  Property theorems live in KtVerif/Props/<id>.lean, the tie
of the regenerated data to the spec data in KtVerif/Tie/*.lean."""

TRUSTED_BASE = [
    "Lean 4.33.0 kernel (thorough tier: also leanchecker on the compiled .olean)",
    "axioms admitted by the audit: propext, Classical.choice, Quot.sound (each theorem's actual set is listed under coverage.theorems)",
    "tools/gen_from_source.py + `ktharness dump-tables`: regeneration of KtVerif/Generated.lean from source text and compiled behaviour",
    "correspondence harness (/verif/harness), line protocol and canonicalisation; agreement model = implementation is established on the explored cases only",
    "Main.lean / KtVerif/Driver.lean glue (hex decoding, printing)",
]

TIE_KMER = [("KtVerif.Tie.Tables", "KT.Tie.nt4_kmer_table_eq_spec"), ("KtVerif.Tie.Tables", "KT.Tie.rev_mask_eq_three")]
TIE_MIN = [("KtVerif.Tie.Tables", "KT.Tie.nt4_min_table_eq_spec")]
TIE_KMIN = [("KtVerif.Tie.Tables", "KT.Tie.nt4_kmin_table_eq_spec")]
TIE_LETTERS = [("KtVerif.Tie.Tables", "KT.Tie.letters_eq_spec")]

PROPS = {
    "C01": {
        "theorems": TIE_KMER,
        "assumptions": ["raw bytes 0x00-0x03 are outside the property (informational stream)"],
        "partial": [],
    },
    "C02": {"theorems": TIE_KMER + TIE_LETTERS, "partial": []},
    "C03": {"theorems": [("KtVerif.Props.C03", "KT." + t) for t in [
        "mem_canonList", "canonList_sorted", "canon_min_mem", "minMerVec_eq_canonList", "posKmer_eq_canonList",
        "kcount_eq", "posMap_size", "posMap_rank", "posMap_noncanon", "posMap_lt_kcount", "kcount_formula",
        "header_eq_spec", "decodeSpec_lex_mono"]] + TIE_LETTERS, "partial": []},
    "C09": {"theorems": TIE_MIN, "partial": []},
    "C18": {"theorems": TIE_KMIN + TIE_MIN, "partial": []},
}

HOOK_COMMITS = ["2bee093", "c72f01b", "6f8e937"]
