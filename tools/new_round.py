#!/usr/bin/env python3
"""usage: tools/new_round.py <suffix e.g. r5> [property ids…]
Creates one scratch worktree /tmp/mut/<Cxx><suffix> of /repo per property and writes the agent prompt
/tmp/mut/prompt_<Cxx><suffix>.txt from tools/mutant_prompt.tmpl: the property's text plus one line for each seeded change
already kept for that property (so that the next author looks for something different)."""
import json, os, subprocess, sys
sfx = sys.argv[1]
only = sys.argv[2:]
V = os.path.dirname(os.path.dirname(os.path.abspath(__file__)))
tmpl = open(os.path.join(V, "tools", "mutant_prompt.tmpl")).read()
props = [json.loads(l) for l in open(os.path.join(V, "properties.jsonl"))]
os.makedirs("/tmp/mut", exist_ok=True)
EMPH = os.environ.get("ROUND_EMPHASIS", "")
for p in props:
    pid = p["id"]
    if only and pid not in only:
        continue
    cid = pid + sfx
    wt = f"/tmp/mut/{cid}"
    if not os.path.exists(wt):
        subprocess.run(["git", "-C", "/repo", "worktree", "add", "--detach", "-q", wt, "HEAD"], check=True)
    text = f"[{pid}] {p['title']}\n\n{p['statement']}\n\nQuantified over: {p['quantifier']['text']}\n\nWhere it lives: {', '.join(p['anchors']['files'])}; observable at: {', '.join(p['anchors']['observe_at'])}"
    prev = []
    for name in sorted(os.listdir(os.path.join(V, "seeded"))):
        mp = os.path.join(V, "seeded", name, "meta.json")
        if os.path.exists(mp):
            m = json.load(open(mp))
            if m["breaks_property"] == pid:
                prev.append(" - " + m["needs_to_manifest"])
    extra = ""
    if prev:
        extra = ("\nOther engineers already produced the bugs listed below for this property. Find something DIFFERENT in mechanism and trigger. "
                 + EMPH + " Avoid re-using any of these:\n" + "\n".join(prev) + "\n")
    open(f"/tmp/mut/prompt_{cid}.txt", "w").write(tmpl.replace("@ID@", cid).replace("@PROP@", text).replace("@EXTRA@", extra))
    print("prepared", cid, len(prev), "previous")
