#!/usr/bin/env python3
"""Writes /verif/MANIFEST.json from tools/props_index.py (one check per claimed property)."""
import json, os, sys
sys.path.insert(0, os.path.dirname(os.path.abspath(__file__)))
import props_index

ALL = [f"C{i:02d}" for i in range(1, 19)]
checks = []
for pid in ALL:
    P = props_index.PROPS.get(pid)
    if not P or P.get("unclaimed"):
        continue
    checks.append({
        "property_id": pid,
        "quick_cmd": f"./check {pid} --tier quick",
        "thorough_cmd": f"./check {pid} --tier thorough",
        "evidence_file": f"/verif/evidence/{pid}.json",
        "replay_cmd_template": f"./check {pid} --replay {{path}}",
        "engine": "lean4-proof+correspondence",
        "level_claimed": {
            "category": "proof",
            "text": P.get("level_text", "Lean 4 theorems about an executable model of the code (all inputs / schedules / histories, no size bound), kernel-checked and axiom-audited on every run; the model is tied to the current source by regenerated tables and by a differential correspondence run against the real code."),
            "design_ref": P.get("design_ref", "DESIGN.md §2 " + pid),
        },
        "level_note": P.get("level_note", "Trusted: Lean kernel; axioms propext/Classical.choice/Quot.sound; translator + correspondence harness; agreement model=code established on explored cases only. " + P.get("level_note_extra", "") + " " + " ".join(P.get("assumptions", []))),
        "technique": P.get("technique", "Lean 4 machine-checked proof over a code-shaped model + model/implementation correspondence check"),
    })
na = []
for pid in ALL:
    P = props_index.PROPS.get(pid)
    if not P:
        na.append({"property_id": pid, "reason": "not yet built in this revision of the framework (planned, see DESIGN.md §6)"})
    elif P.get("unclaimed"):
        na.append({"property_id": pid, "reason": P["unclaimed"]})
man = {
    "version": 1,
    "setup_cmd": "./setup.sh",
    "hooks": {
        "guard": "kmertools_verif",
        "enable": "RUSTFLAGS='--cfg kmertools_verif' (set in /verif/harness/.cargo/config.toml; the harness crate depends on /repo's crates by path)",
        "baseline_off_cmd": "cd /repo && cargo test --workspace --no-fail-fast --offline",
        "source_commits": props_index.HOOK_COMMITS,
        "add_only": True,
    },
    "engines": [
        {"name": "lean4-proof+correspondence", "path": "/verif/check",
         "serves_properties": [c["property_id"] for c in checks],
         "kind_free_text": "Lean 4 (lake project /verif/lean: Spec, Model, Proofs, Props, Tie) + Rust harness /verif/harness talking to the compiled model driver ktmodel over a line protocol"},
    ],
    "checks": checks,
    "not_applicable": na,
    "notes": "See DESIGN.md. ./check <id> rebuilds harness/CLI from /repo's working tree, regenerates KtVerif/Generated.lean, re-checks and audits the theorems, then runs the correspondence.",
}
with open(os.path.join(os.path.dirname(os.path.abspath(__file__)), "..", "MANIFEST.json"), "w") as f:
    json.dump(man, f, indent=1)
    f.write("\n")
print("MANIFEST.json written:", len(checks), "checks,", len(na), "not applicable")
