"""Translator for the data-like parts of the model (DESIGN §1.2a).

`generate(repo, behavioural)` returns the text of KtVerif/Generated.lean:
  * lexical copies: literals read from the Rust source text (no evaluation),
  * behavioural copies: what the freshly compiled code does on the complete finite domain of each
    datum (`ktharness dump-tables`, passed in as a dict; None if the harness did not build).
KtVerif/Tie/*.lean proves (by `decide +kernel`) that each copy equals the spec datum the theorems use.
A lexical datum that cannot be found is emitted as `none` (logged, does not break the obligation).
"""
import os
import re


def _read(repo, rel):
    try:
        return open(os.path.join(repo, rel), errors="replace").read()
    except OSError:
        return ""


def lex_table(src):
    m = re.search(r"const\s+SEQ_NT4_TABLE\s*:\s*\[u8;\s*256\]\s*=\s*\[(.*?)\];", src, re.S)
    if not m:
        return None
    body = re.sub(r"//[^\n]*", "", m.group(1))
    toks = [t.strip() for t in body.split(",") if t.strip()]
    try:
        vals = [int(t.replace("_u8", "").replace("u8", ""), 0) for t in toks]
    except ValueError:
        return None
    return vals if len(vals) == 256 else None


def lex_const(src, name):
    m = re.search(r"const\s+" + name + r"\s*:\s*\w+\s*=\s*([^;]+);", src)
    if not m:
        return None
    expr = m.group(1).strip()
    expr = re.sub(r"_?(u64|usize|u8|u32)\b", "", expr)
    if re.fullmatch(r"[0-9\s\*\+\-\(\)<]+", expr):
        try:
            return int(eval(expr, {"__builtins__": {}}))  # arithmetic on literals only
        except Exception:  # noqa
            return None
    return None


def lex_letters(src):
    """numeric_to_kmer digit -> letter arms"""
    arms = re.findall(r"0b([01]{2})\s*=>\s*'(\w)'", src)
    if len(arms) != 4:
        return None
    d = {int(a, 2): ord(c) for a, c in arms}
    return [d.get(i) for i in range(4)] if set(d) == {0, 1, 2, 3} else None


def lex_cgr(src):
    """corner table of a cgr_maps copy: byte -> (x, y) in units of vecsize (0 or 1)"""
    pts = {}
    for name, x, y in re.findall(r"let\s+(cgr_[atgc])\s*:\s*Point\s*=\s*\(([^,]+),\s*([^)]+)\)\s*;", src):
        def unit(e):
            e = e.strip()
            if e == "vecsize":
                return 1
            if e in ("0.0", "0"):
                return 0
            return None
        pts[name] = (unit(x), unit(y))
    ents = re.findall(r"\(b'(\w)',\s*(cgr_[atgc])\)", src)
    if not ents or len(pts) != 4 or any(None in v for v in pts.values()):
        return None
    # several copies may be in one file: keep first definition per byte, require consistency
    out = {}
    for ch, nm in ents:
        b = ord(ch)
        if nm not in pts:
            return None
        if b in out and out[b] != pts[nm]:
            return None
        out[b] = pts[nm]
    return out


def lex_formats(src):
    """suffix lists of SeqFormat::get"""
    m = re.search(r"pub fn get\(path: &str\).*?\n    \}", src, re.S)
    if not m:
        return None
    body = m.group(0)
    fq = re.search(r"if\s+([^{}]*)\{\s*return Some\(SeqFormat::Fastq\)", body, re.S)
    fa = re.search(r"else if\s+([^{}]*)\{\s*return Some\(SeqFormat::Fasta\)", body, re.S)
    if not fq or not fa:
        return None
    return (sorted(re.findall(r'ends_with\("([^"]+)"\)', fq.group(1))),
            sorted(re.findall(r'ends_with\("([^"]+)"\)', fa.group(1))))


def lex_clap(src):
    """clap value ranges / defaults per (struct, field) of kmertools/src/args.rs"""
    out = {}
    structs = re.split(r"pub struct\s+(\w+)\s*\{", src)
    for i in range(1, len(structs), 2):
        name, body = structs[i], structs[i + 1].split("\n}\n", 1)[0]
        # attribute block followed by `pub field: type`
        for attr, field, ty in re.findall(r"((?:\s*#\[[^\n]*\]\n|\s*///[^\n]*\n)+)\s*pub\s+(\w+)\s*:\s*([^,\n]+),", body):
            ent = {"type": ty.strip()}
            r = re.search(r"range\(([^)]*)\)", attr)
            if r:
                ent["range"] = r.group(1).strip()
            d = re.search(r"default_value_t\s*=\s*([^,\)\]]+)", attr)
            if d:
                ent["default"] = d.group(1).strip()
            sh = re.search(r"short\s*=\s*'(.)'", attr)
            if sh:
                ent["short"] = sh.group(1)
            elif re.search(r"\bshort\b", attr):
                ent["short"] = field[0]
            lg = re.search(r'long\s*=\s*"([^"]+)"', attr)
            if lg:
                ent["long"] = lg.group(1)
            elif re.search(r"\blong\b", attr):
                ent["long"] = field.replace("_", "-")
            out[(name, field)] = ent
    return out


def parse_range(r):
    """'3..=7' -> (3, 7); '5..' -> (5, None); '10..32' -> (10, 31)"""
    m = re.fullmatch(r"(\d+)\.\.(=?)(\d*)", r.replace(" ", ""))
    if not m:
        return None
    lo = int(m.group(1))
    if m.group(3) == "":
        return (lo, None)
    hi = int(m.group(3))
    return (lo, hi if m.group(2) == "=" else hi - 1)


def lean_nat_array(vals):
    return "#[" + ", ".join(str(v) for v in vals) + "]"


def opt(x, render):
    return "none" if x is None else "some (" + render(x) + ")"


def generate(repo, beh):
    notes = []
    L = []
    L.append("/-! GENERATED by tools/gen_from_source.py on every check — do not edit.")
    L.append("    Lexical copies come from the Rust source text, behavioural copies from the compiled code. -/")
    L.append("namespace KT.Gen")
    L.append("")
    tables = [("Kmer", "kmer/src/kmer.rs", "nt4_kmer"), ("Min", "kmer/src/minimiser.rs", "nt4_min"),
              ("KMin", "kmer/src/kmer_minimisers.rs", "nt4_kmin")]
    for nm, rel, bkey in tables:
        src = _read(repo, rel)
        t = lex_table(src)
        if t is None:
            notes.append(f"lexical: SEQ_NT4_TABLE not found in {rel} (behavioural copy decides)")
        L.append(f"def nt4{nm}Lex : Option (Array Nat) := " + opt(t, lean_nat_array))
        rm = lex_const(src, "REV_MASK")
        if rm is None:
            notes.append(f"lexical: REV_MASK not found in {rel}")
        L.append(f"def revMask{nm}Lex : Option Nat := " + opt(rm, str))
        b = beh.get(bkey) if beh else None
        L.append(f"def nt4{nm}Beh : Option (Array Nat) := " + opt(b, lean_nat_array))
        L.append("")
    # numeric_to_kmer letters
    lt = lex_letters(_read(repo, "kmer/src/lib.rs"))
    if lt is None:
        notes.append("lexical: numeric_to_kmer arms not found")
    L.append("def lettersLex : Option (Array Nat) := " + opt(lt, lean_nat_array))
    L.append("def lettersBeh : Option (Array Nat) := " + opt(beh.get("letters") if beh else None, lean_nat_array))
    L.append("")
    # NUMBER_SIZE
    for nm, rel in [("Oligo", "composition/src/oligo.rs"), ("Cov", "coverage/src/lib.rs")]:
        v = lex_const(_read(repo, rel), "NUMBER_SIZE")
        if v is None:
            notes.append(f"lexical: NUMBER_SIZE not found in {rel}")
        L.append(f"def numberSize{nm}Lex : Option Nat := " + opt(v, str))
    L.append("")
    # CGR corner tables: byte ↦ 2*x + y code (x,y in units of S) or 4 = not in the map
    for nm, rel in [("Cgr", "composition/src/cgr.rs"), ("OligoCgr", "composition/src/oligocgr.rs")]:
        c = lex_cgr(_read(repo, rel))
        if c is None:
            notes.append(f"lexical: cgr corner table not found in {rel}")
            L.append(f"def cgrCorner{nm}Lex : Option (Array Nat) := none")
        else:
            arr = [(2 * c[b][0] + c[b][1]) if b in c else 4 for b in range(256)]
            L.append(f"def cgrCorner{nm}Lex : Option (Array Nat) := some ({lean_nat_array(arr)})")
    L.append("def cgrCornerCgrBeh : Option (Array Nat) := " +
             opt(beh.get("cgr_corner") if beh else None, lean_nat_array))
    L.append("")
    # SeqFormat suffix table: behavioural answers on a fixed list of names (0 = none, 1 = fasta, 2 = fastq)
    fm = lex_formats(_read(repo, "ktio/src/seq.rs"))
    if fm is None:
        notes.append("lexical: SeqFormat::get suffix lists not found")
        L.append("def formatsLex : Option (List String × List String) := none")
    else:
        fq, fa = fm
        L.append("def formatsLex : Option (List String × List String) := some (" +
                 "[" + ", ".join(f'"{s}"' for s in fq) + "], [" + ", ".join(f'"{s}"' for s in fa) + "])")
    L.append("def formatsBeh : Option (Array Nat) := " + opt(beh.get("formats") if beh else None, lean_nat_array))
    L.append("")
    # clap ranges
    clap = lex_clap(_read(repo, "kmertools/src/args.rs"))
    want = [("OligoCommand", "k_size"), ("CGRCommand", "k_size"), ("CoverageCommand", "k_size"),
            ("CoverageCommand", "bin_size"), ("CoverageCommand", "bin_count"), ("CoverageCommand", "memory"),
            ("MinimiserCommand", "m_size"), ("MinimiserCommand", "w_size"), ("CounterCommand", "k_size"),
            ("CounterCommand", "memory")]
    L.append("/-- (struct, field, lo, hi) with hi = 0 meaning unbounded; absent when the range literal was not found -/")
    rows = []
    for st, fld in want:
        ent = clap.get((st, fld))
        rg = parse_range(ent["range"]) if ent and "range" in ent else None
        if rg is None:
            notes.append(f"lexical: clap range of {st}.{fld} not found")
            continue
        rows.append(f'("{st}", "{fld}", {rg[0]}, {rg[1] if rg[1] is not None else 0})')
    L.append("def clapRangesLex : List (String × String × Nat × Nat) := [" + ", ".join(rows) + "]")
    drows = []
    for (st, fld), ent in sorted(clap.items()):
        if "default" in ent and re.fullmatch(r"\d+", ent["default"]):
            drows.append(f'("{st}", "{fld}", {ent["default"]})')
    L.append("def clapDefaultsLex : List (String × String × Nat) := [" + ", ".join(drows) + "]")
    L.append("")
    L.append("end KT.Gen")
    return "\n".join(L) + "\n", notes
